// Kernel-side model of Linux IP sets, written for the ipset engine (C16).
//
// It models what the `ipset` userspace tool exposes of the kernel: named sets
// with a type and creation parameters, members in the kernel's canonical text
// form, references held by packet-filter rules (by set name: `swap` exchanges
// the contents behind two names and leaves the references where they are), and
// the non-transactional, line-by-line behaviour of `ipset restore`.
//
// Deliberate simplifications (listed in engines/ipset.json): `swap` does not
// enforce the kernel's "same type features" rule, maxelem is recorded but a set
// never fills up, hash sizes / timeouts / counters are not modelled.
package h_ipset

import (
	"fmt"
	"net/netip"
	"sort"
	"strconv"
	"strings"
)

const maxSetNameLen = 31

type kset struct {
	uid      int // identity of the set object; travels with the contents on swap
	typ      string
	family   string // "inet" / "inet6"; "" for bitmap:port and list:set
	maxelem  int
	rmin     int
	rmax     int
	revision int
	members  map[string]bool
}

func (s *kset) params() string {
	return fmt.Sprintf("%s/%s/maxelem=%d/range=%d-%d", s.typ, s.family, s.maxelem, s.rmin, s.rmax)
}

func (s *kset) sortedMembers() []string {
	out := make([]string, 0, len(s.members))
	for m := range s.members {
		out = append(out, m)
	}
	sort.Strings(out)
	return out
}

func (s *kset) describe() string {
	return fmt.Sprintf("#%d %s {%s}", s.uid, s.params(), strings.Join(s.sortedMembers(), " "))
}

type kernel struct {
	sets    map[string]*kset
	refs    map[string]bool // set names referenced by a rule ("in use")
	nextUID int
}

func newKernel() *kernel {
	return &kernel{sets: map[string]*kset{}, refs: map[string]bool{}}
}

type kerr struct{ msg string }

func (e *kerr) Error() string { return e.msg }

func kerrf(format string, a ...interface{}) error { return &kerr{fmt.Sprintf(format, a...)} }

const msgNoSuchSet = "The set with the given name does not exist"

var knownTypes = map[string]bool{
	"hash:ip": true, "hash:net": true, "hash:ip,port": true, "hash:net,net": true,
	"bitmap:port": true, "list:set": true,
}

func (k *kernel) names() []string {
	out := make([]string, 0, len(k.sets))
	for n := range k.sets {
		out = append(out, n)
	}
	sort.Strings(out)
	return out
}

// create adds a set directly (start state, out-of-band creation, restore line).
func (k *kernel) create(name, typ, family string, maxelem, rmin, rmax int) (*kset, error) {
	if name == "" || len(name) > maxSetNameLen {
		return nil, kerrf("Syntax error: setname '%s' is longer than %d characters", name, maxSetNameLen)
	}
	if !knownTypes[typ] {
		return nil, kerrf("Syntax error: unknown settype '%s'", typ)
	}
	if _, ok := k.sets[name]; ok {
		return nil, kerrf("Set cannot be created: set with the same name already exists")
	}
	switch typ {
	case "bitmap:port":
		family = ""
		maxelem = 0
		if rmin < 0 || rmax > 65535 || rmin > rmax {
			return nil, kerrf("Syntax error: invalid port range %d-%d", rmin, rmax)
		}
	case "list:set":
		family, maxelem, rmin, rmax = "", 0, 0, 0
	default:
		if family == "" {
			family = "inet"
		}
		if family != "inet" && family != "inet6" {
			return nil, kerrf("Syntax error: unknown family '%s'", family)
		}
		if maxelem <= 0 {
			maxelem = 65536
		}
		rmin, rmax = 0, 0
	}
	k.nextUID++
	s := &kset{uid: k.nextUID, typ: typ, family: family, maxelem: maxelem, rmin: rmin, rmax: rmax, revision: 4, members: map[string]bool{}}
	k.sets[name] = s
	return s, nil
}

func canonAddr(s, family string) (string, error) {
	a, err := netip.ParseAddr(s)
	if err != nil {
		return "", kerrf("Syntax error: cannot parse %s: resolving to %s address failed", s, family)
	}
	a = a.Unmap()
	if a.Is4() != (family == "inet") {
		return "", kerrf("Syntax error: %s is not an %s address", s, family)
	}
	return a.String(), nil
}

func canonNet(s, family string) (string, error) {
	if !strings.Contains(s, "/") {
		return canonAddr(s, family)
	}
	p, err := netip.ParsePrefix(s)
	if err != nil {
		return "", kerrf("Syntax error: cannot parse %s as a network", s)
	}
	if p.Addr().Is4() != (family == "inet") {
		return "", kerrf("Syntax error: %s is not an %s network", s, family)
	}
	p = p.Masked()
	if p.Bits() == p.Addr().BitLen() {
		return p.Addr().String(), nil
	}
	if p.Bits() == 0 {
		return "", kerrf("The value of the CIDR parameter of the IP address is invalid")
	}
	return p.String(), nil
}

// canonMember converts what a user typed into what `ipset list` prints.
func canonMember(s *kset, m string) (string, error) {
	switch s.typ {
	case "hash:ip":
		if i := strings.Index(m, "/"); i >= 0 {
			c, err := canonNet(m, s.family)
			if err != nil {
				return "", err
			}
			if strings.Contains(c, "/") {
				return "", kerrf("model: hash:ip range expansion not supported (%s)", m)
			}
			return c, nil
		}
		return canonAddr(m, s.family)
	case "hash:net":
		return canonNet(m, s.family)
	case "hash:ip,port":
		parts := strings.Split(m, ",")
		if len(parts) != 2 {
			return "", kerrf("Syntax error: Second element is missing from %s.", m)
		}
		a, err := canonAddr(parts[0], s.family)
		if err != nil {
			return "", err
		}
		pp := strings.Split(parts[1], ":")
		proto, port := "tcp", parts[1]
		if len(pp) == 2 {
			proto, port = strings.ToLower(pp[0]), pp[1]
		} else if len(pp) != 1 {
			return "", kerrf("Syntax error: cannot parse '%s' as a port", parts[1])
		}
		switch proto {
		case "tcp", "udp", "sctp", "udplite":
		default:
			return "", kerrf("Syntax error: '%s' is invalid as a protocol", proto)
		}
		n, err := strconv.Atoi(port)
		if err != nil || n < 0 || n > 65535 {
			return "", kerrf("Syntax error: '%s' is invalid as a port", port)
		}
		return fmt.Sprintf("%s,%s:%d", a, proto, n), nil
	case "hash:net,net":
		parts := strings.Split(m, ",")
		if len(parts) != 2 {
			return "", kerrf("Syntax error: Second element is missing from %s.", m)
		}
		a, err := canonNet(parts[0], s.family)
		if err != nil {
			return "", err
		}
		b, err := canonNet(parts[1], s.family)
		if err != nil {
			return "", err
		}
		return a + "," + b, nil
	case "bitmap:port":
		p := m
		if i := strings.Index(p, ":"); i >= 0 {
			p = p[i+1:]
		}
		n, err := strconv.Atoi(p)
		if err != nil {
			return "", kerrf("Syntax error: '%s' is invalid as a port", m)
		}
		if n < s.rmin || n > s.rmax {
			return "", kerrf("Element is out of the range of the set")
		}
		return strconv.Itoa(n), nil
	case "list:set":
		if m == "" {
			return "", kerrf("Syntax error: empty set name")
		}
		return m, nil
	}
	return "", kerrf("model: unknown type %s", s.typ)
}

func hasExistFlag(args []string) ([]string, bool) {
	out := args[:0:0]
	exist := false
	for _, a := range args {
		if a == "-exist" || a == "--exist" || a == "-!" {
			exist = true
			continue
		}
		out = append(out, a)
	}
	return out, exist
}

// exec applies one `ipset restore` line (or the equivalent one-shot command).
// Either the line takes full effect or it fails without effect.
func (k *kernel) exec(line string) error {
	fields := strings.Fields(line)
	if len(fields) == 0 || strings.HasPrefix(fields[0], "#") {
		return nil
	}
	args, exist := hasExistFlag(fields[1:])
	switch fields[0] {
	case "COMMIT":
		return nil
	case "create", "-N", "n":
		if len(args) < 2 {
			return kerrf("Syntax error: missing set name or type")
		}
		name, typ := args[0], args[1]
		family, maxelem, rmin, rmax := "", 0, 0, 0
		opts := args[2:]
		for i := 0; i < len(opts); i += 2 {
			if i+1 >= len(opts) {
				return kerrf("Syntax error: missing argument to option '%s'", opts[i])
			}
			v := opts[i+1]
			switch opts[i] {
			case "family":
				family = v
			case "maxelem":
				n, err := strconv.Atoi(v)
				if err != nil || n <= 0 {
					return kerrf("Syntax error: '%s' is invalid as number", v)
				}
				maxelem = n
			case "hashsize", "timeout", "bucketsize", "initval":
			case "range":
				lohi := strings.Split(v, "-")
				if len(lohi) != 2 {
					return kerrf("Syntax error: '%s' is invalid as a range", v)
				}
				a, err1 := strconv.Atoi(lohi[0])
				b, err2 := strconv.Atoi(lohi[1])
				if err1 != nil || err2 != nil {
					return kerrf("Syntax error: '%s' is invalid as a range", v)
				}
				rmin, rmax = a, b
			default:
				return kerrf("Syntax error: unknown argument '%s'", opts[i])
			}
		}
		if typ == "bitmap:port" && rmin == 0 && rmax == 0 && !strings.Contains(line, " range ") {
			return kerrf("Syntax error: mandatory option 'range' is missing")
		}
		if old, ok := k.sets[name]; ok && exist {
			probe := &kset{typ: typ, family: family, maxelem: maxelem, rmin: rmin, rmax: rmax}
			if probe.family == "" && typ != "bitmap:port" && typ != "list:set" {
				probe.family = "inet"
			}
			if probe.params() == old.params() {
				return nil
			}
		}
		_, err := k.create(name, typ, family, maxelem, rmin, rmax)
		return err
	case "add", "-A", "a":
		if len(args) != 2 {
			return kerrf("Syntax error: add needs a set name and an element")
		}
		s, ok := k.sets[args[0]]
		if !ok {
			return kerrf(msgNoSuchSet)
		}
		m, err := canonMember(s, args[1])
		if err != nil {
			return err
		}
		if s.members[m] {
			if exist {
				return nil
			}
			return kerrf("Element cannot be added to the set: it's already added")
		}
		s.members[m] = true
		return nil
	case "del", "-D", "d":
		if len(args) != 2 {
			return kerrf("Syntax error: del needs a set name and an element")
		}
		s, ok := k.sets[args[0]]
		if !ok {
			return kerrf(msgNoSuchSet)
		}
		m, err := canonMember(s, args[1])
		if err != nil {
			return err
		}
		if !s.members[m] {
			if exist {
				return nil
			}
			return kerrf("Element cannot be deleted from the set: it's not added")
		}
		delete(s.members, m)
		return nil
	case "swap", "-W", "w":
		if len(args) != 2 {
			return kerrf("Syntax error: swap needs two set names")
		}
		a, ok := k.sets[args[0]]
		if !ok {
			return kerrf(msgNoSuchSet)
		}
		b, ok := k.sets[args[1]]
		if !ok {
			return kerrf("Sets cannot be swapped: the second set does not exist")
		}
		k.sets[args[0]], k.sets[args[1]] = b, a
		return nil
	case "destroy", "-X", "x":
		if len(args) != 1 {
			return kerrf("model: destroy needs exactly one set name")
		}
		if _, ok := k.sets[args[0]]; !ok {
			return kerrf(msgNoSuchSet)
		}
		if k.refs[args[0]] {
			return kerrf("Set cannot be destroyed: it is in use by a kernel component")
		}
		delete(k.sets, args[0])
		return nil
	case "flush", "-F", "f":
		if len(args) != 1 {
			return kerrf("model: flush needs exactly one set name")
		}
		s, ok := k.sets[args[0]]
		if !ok {
			return kerrf(msgNoSuchSet)
		}
		s.members = map[string]bool{}
		return nil
	}
	return kerrf("Syntax error: unknown command '%s'", fields[0])
}

// list renders `ipset list NAME`.  headerExtra selects the newer-kernel header
// variant with trailing fields.
func (k *kernel) list(name string, headerExtra bool) (string, error) {
	s, ok := k.sets[name]
	if !ok {
		return "", kerrf(msgNoSuchSet)
	}
	var b strings.Builder
	fmt.Fprintf(&b, "Name: %s\n", name)
	fmt.Fprintf(&b, "Type: %s\n", s.typ)
	fmt.Fprintf(&b, "Revision: %d\n", s.revision)
	switch s.typ {
	case "bitmap:port":
		fmt.Fprintf(&b, "Header: range %d-%d\n", s.rmin, s.rmax)
	case "list:set":
		fmt.Fprintf(&b, "Header: size 8\n")
	default:
		if headerExtra {
			fmt.Fprintf(&b, "Header: family %s hashsize 1024 maxelem %d bucketsize 12 initval 0x5c1d2e3f\n", s.family, s.maxelem)
		} else {
			fmt.Fprintf(&b, "Header: family %s hashsize 1024 maxelem %d\n", s.family, s.maxelem)
		}
	}
	fmt.Fprintf(&b, "Size in memory: %d\n", 200+24*len(s.members))
	refs := 0
	if k.refs[name] {
		refs = 1
	}
	fmt.Fprintf(&b, "References: %d\n", refs)
	fmt.Fprintf(&b, "Number of entries: %d\n", len(s.members))
	fmt.Fprintf(&b, "Members:\n")
	for _, m := range s.sortedMembers() {
		b.WriteString(m)
		b.WriteByte('\n')
	}
	return b.String(), nil
}

func (k *kernel) listNames() string {
	var b strings.Builder
	for _, n := range k.names() {
		b.WriteString(n)
		b.WriteByte('\n')
	}
	return b.String()
}

// snapshot renders the sets selected by keep in a canonical form.
func (k *kernel) snapshot(keep func(name string) bool) string {
	var b strings.Builder
	for _, n := range k.names() {
		if keep(n) {
			fmt.Fprintf(&b, "%s=%s\n", n, k.sets[n].describe())
		}
	}
	return b.String()
}
