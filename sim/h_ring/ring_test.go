// Engine ring (C45): N simulated Felix nodes each own a real hashring.Ring (used the
// way felix/dataplane/linux/proxy_neigh_mgr.go uses it: Insert(host, host) /
// Remove(host) / Lookup(ip)).  One shared membership history reaches every node
// through its own faulty feed; lookups are interleaved at seed-chosen points so the
// ring's deferred sweep and deferred sort happen at different points on each node.
package h_ring

import (
	"fmt"
	"hash/fnv"
	"sort"
	"strings"
	"testing"

	"github.com/projectcalico/calico/lib/datastructures/hashring"

	"verifsim/core"
)

func TestSim(t *testing.T) {
	core.Main(t, "ring", []string{"C45"}, run)
}

type event struct {
	seq  int // position in the shared history; -1 for feed-invented flap events
	name string
	add  bool
}

func (e event) String() string {
	if e.add {
		return fmt.Sprintf("#%d add %q", e.seq, e.name)
	}
	return fmt.Sprintf("#%d remove %q", e.seq, e.name)
}

type node struct {
	id     int
	ring   *hashring.Ring[string]
	queues map[string][]event // per-member FIFO: the feed never reorders events of one member
	last   map[string]event   // last event delivered per member
	set    map[string]bool    // reference: the member set this node has been told about

	// bookkeeping for probes only
	removedSinceLookup map[string]bool
	sawLookup          bool
	emptyWithPending   bool
}

func sortedSet(m map[string]bool) []string {
	ks := make([]string, 0, len(m))
	for k := range m {
		ks = append(ks, k)
	}
	sort.Strings(ks)
	return ks
}

func quoteAll(xs []string) string {
	q := make([]string, len(xs))
	for i, x := range xs {
		q[i] = fmt.Sprintf("%q", x)
	}
	return "[" + strings.Join(q, " ") + "]"
}

// pendingNames returns the members with undelivered events, oldest head first.
func (n *node) pendingNames() []string {
	var ks []string
	for k, q := range n.queues {
		if len(q) > 0 {
			ks = append(ks, k)
		}
	}
	sort.Slice(ks, func(i, j int) bool {
		a, b := n.queues[ks[i]][0], n.queues[ks[j]][0]
		if a.seq != b.seq {
			return a.seq < b.seq
		}
		return ks[i] < ks[j]
	})
	return ks
}

type sim struct {
	r        *core.R
	opts     []hashring.Option
	optsDesc string
	nodes    []*node
	keys     []string
}

func (s *sim) newRing() *hashring.Ring[string] { return hashring.New[string](s.opts...) }

// freshOwner builds a brand-new ring from members in the given order and asks it.
func (s *sim) freshOwner(members []string, key string) (string, bool) {
	f := s.newRing()
	for _, m := range members {
		f.Insert(m, m)
	}
	return f.Lookup(key)
}

func (s *sim) apply(n *node, e event, how string) {
	r := s.r
	r.Logf("  node%d %s %s", n.id, how, e)
	before := n.ring.Len()
	if e.add {
		if n.removedSinceLookup[e.name] {
			r.Probe("reinsert_before_sweep")
		}
		if n.set[e.name] {
			r.Probe("insert_existing_member")
		}
		if n.emptyWithPending && !n.set[e.name] {
			r.Probe("insert_after_emptied_unswept")
		}
		n.ring.Insert(e.name, e.name)
		n.set[e.name] = true
		delete(n.removedSinceLookup, e.name)
	} else {
		if !n.set[e.name] {
			r.Probe("remove_absent_member")
		} else if n.sawLookup {
			n.removedSinceLookup[e.name] = true
		}
		n.ring.Remove(e.name)
		delete(n.set, e.name)
		if len(n.set) == 0 && len(n.removedSinceLookup) > 0 {
			n.emptyWithPending = true
		}
	}
	if n.ring.Len() != before {
		r.Probe("len_changed")
	}
	n.last[e.name] = e
}

func (s *sim) lookup(n *node, key string, perm []int) {
	r := s.r
	owner, ok := n.ring.Lookup(key)
	members := sortedSet(n.set)
	r.Logf("  node%d Lookup(%q) = (%q,%v) members=%s", n.id, key, owner, ok, quoteAll(members))
	if len(n.removedSinceLookup) > 0 {
		r.Probe("lookup_forces_sweep")
	}
	if len(members) == 0 {
		r.Probe("lookup_empty_ring")
		if n.sawLookup && len(n.last) > 0 {
			r.Probe("lookup_emptied_ring")
		}
	}
	n.removedSinceLookup = map[string]bool{}
	if len(members) > 0 {
		n.emptyWithPending = false
	}
	n.sawLookup = true
	r.Check("absent_iff_empty", ok == (len(members) > 0), "node%d Lookup(%q) ok=%v but the node's member set is %s", n.id, key, ok, quoteAll(members))
	if !ok {
		r.Check("absent_zero_value", owner == "", "node%d Lookup(%q) reported absence with non-zero owner %q", n.id, key, owner)
		return
	}
	r.Check("owner_is_current_member", n.set[owner], "node%d Lookup(%q) = %q which is not in its current member set %s", n.id, key, owner, quoteAll(members))
	ordered := make([]string, len(members))
	for i, p := range perm {
		ordered[i] = members[p]
	}
	want, wok := s.freshOwner(ordered, key)
	r.Check("owner_depends_only_on_set", wok && want == owner, "node%d Lookup(%q) = %q after its history, but a ring built fresh from the same members %s (inserted as %s) says (%q,%v) [%s]", n.id, key, owner, quoteAll(members), quoteAll(ordered), want, wok, s.optsDesc)
}

func weakHash(mask uint64) hashring.Hash {
	return func(b []byte) uint64 {
		h := fnv.New64a()
		h.Write(b)
		return h.Sum64() & mask
	}
}

func run(r *core.R) {
	r.FaultDecl("feed_reorder", "feed_duplicate", "feed_delay", "feed_flap")
	r.ProbeDecl("reinsert_before_sweep", "insert_existing_member", "insert_after_emptied_unswept", "remove_absent_member",
		"lookup_forces_sweep", "lookup_empty_ring", "lookup_emptied_ring", "len_changed", "colliding_hash", "multi_probe",
		"nodes_disagree_midrun", "final_set_empty", "final_set_multi", "large_cluster")
	s := &sim{r: r}

	// ---- swarm configuration
	nNodes := r.Src.Range(2, 5, "nodes")
	universe := r.Src.Range(1, 10, "universe")
	// large-cluster profile: behaviour that depends on the ring's size (thresholds, amortised sweeps) needs
	// more members than the default universe holds, and a member set that stays nearly full so that single
	// removals from a big ring are common
	large := r.Src.Chance(400, "large_cluster")
	if large {
		universe = r.Src.Range(11, 40, "universe_large")
	}
	replicas := []int{1, 2, 3, 7, 100}[r.Src.Weighted([]int{3, 2, 2, 2, 4}, "replicas")]
	probes := []int{1, 2, 5, 21}[r.Src.Weighted([]int{5, 2, 2, 1}, "probes")]
	hashMode := r.Src.Weighted([]int{5, 2, 2, 1}, "hash")
	s.opts = []hashring.Option{hashring.WithReplicas(replicas), hashring.WithProbes(probes)}
	hashName := "xxh3(default)"
	switch hashMode {
	case 1:
		s.opts = append(s.opts, hashring.WithHash(weakHash(0xffff)))
		hashName = "fnv&0xffff"
	case 2:
		s.opts = append(s.opts, hashring.WithHash(weakHash(0xf)))
		hashName = "fnv&0xf"
	case 3:
		s.opts = append(s.opts, hashring.WithHash(weakHash(0x1)))
		hashName = "fnv&0x1"
	}
	if hashMode >= 2 {
		r.Probe("colliding_hash")
	}
	if probes > 1 {
		r.Probe("multi_probe")
	}
	nHist := r.Src.Range(3, 60, "history_len")
	if large {
		nHist += universe
	}
	lookupW := r.Src.Range(1, 8, "lookup_weight")
	pDup := r.Src.Intn(120, "p_dup")
	pFlap := r.Src.Intn(120, "p_flap")
	reorderOn := r.Src.Chance(800, "reorder_on")
	trickyNames := r.Src.Chance(300, "tricky_names")
	s.optsDesc = fmt.Sprintf("replicas=%d probes=%d hash=%s", replicas, probes, hashName)
	r.Cfg("nodes", nNodes)
	r.Cfg("universe", universe)
	if large {
		r.Probe("large_cluster")
	}
	r.Cfg("replicas", replicas)
	r.Cfg("probes", probes)
	r.Cfg("hash", hashName)
	r.Cfg("history_len", nHist)

	names := make([]string, universe)
	for i := range names {
		names[i] = fmt.Sprintf("node-%d", i+1)
	}
	if trickyNames {
		tricky := []string{"", "n", "n\x00", "node-1\x00\x00", "node-10", "NODE-1", "node-1.example.com", "10.0.0.1", "n\x00\x01\x00\x00\x00", "ñode"}
		for i := range names {
			if i < len(tricky) && r.Src.Chance(500, "tricky_pick") {
				names[i] = tricky[i]
			}
		}
	}
	nKeys := r.Src.Range(8, 48, "nkeys")
	if large {
		nKeys = r.Src.Range(200, 1200, "nkeys_large")
	}
	for i := 0; i < nKeys; i++ {
		switch i % 4 {
		case 0, 1:
			s.keys = append(s.keys, fmt.Sprintf("10.%d.%d.%d", i/7, i*13%256, i*29%256))
		case 2:
			s.keys = append(s.keys, fmt.Sprintf("fd00:%x::%x", i, i*977))
		default:
			s.keys = append(s.keys, names[i%len(names)]) // a key that equals a member name
		}
	}
	s.keys = append(s.keys, "")

	for i := 0; i < nNodes; i++ {
		s.nodes = append(s.nodes, &node{id: i, ring: s.newRing(), queues: map[string][]event{}, last: map[string]event{},
			set: map[string]bool{}, removedSinceLookup: map[string]bool{}})
	}

	// ---- chaos phase: publish the shared history while every node's feed delivers at its own pace
	present := map[string]bool{}
	published := 0
	steps := 0
	maxSteps := nHist*(nNodes+2)*3 + 50
	for published < nHist && steps < maxSteps {
		steps++
		act := r.Src.Weighted([]int{6, 4 * nNodes, lookupW * nNodes / 2, 1, 1}, "sched_action")
		n := s.nodes[r.Src.Intn(nNodes, "sched_node")]
		switch act {
		case 0: // the cluster changes
			name := names[r.Src.Intn(universe, "member")]
			if large && (published < universe || r.Src.Chance(600, "large_prefers_add")) {
				// fill the cluster first, then keep it nearly full (names may repeat: tricky names)
				var absent []string
				for _, nm := range names {
					if !present[nm] {
						absent = append(absent, nm)
					}
				}
				if len(absent) > 0 {
					name = absent[r.Src.Intn(len(absent), "member_absent")]
				}
			}
			add := !present[name]
			if r.Src.Chance(120, "redundant_event") {
				add = !add // metadata refresh of a present host / removal of an unknown one
			}
			e := event{seq: published, name: name, add: add}
			published++
			r.Op("history %s", e)
			if add {
				present[name] = true
			} else {
				delete(present, name)
			}
			for _, nd := range s.nodes {
				nd.queues[name] = append(nd.queues[name], e)
			}
		case 1: // this node's feed delivers one event
			pend := n.pendingNames()
			if len(pend) == 0 {
				continue
			}
			idx := 0
			if reorderOn {
				idx = r.Src.Intn(len(pend), "sched_deliver")
			}
			name := pend[idx]
			e := n.queues[name][0]
			n.queues[name] = n.queues[name][1:]
			if idx != 0 {
				r.Fault("feed_reorder")
			}
			if e.seq >= 0 && published-e.seq > 3 {
				r.Fault("feed_delay")
			}
			r.Op("node%d deliver", n.id)
			s.apply(n, e, "deliver")
		case 2:
			key := s.keys[r.Src.Intn(len(s.keys), "key")]
			r.Op("node%d lookup", n.id)
			s.lookup(n, key, r.Src.Perm(len(n.set), "fresh_order"))
		case 3: // duplicate: the feed repeats the last thing it said about some member
			if !r.Src.Chance(pDup*8, "dup_fire") || len(n.last) == 0 {
				continue
			}
			ks := make([]string, 0, len(n.last))
			for k := range n.last {
				ks = append(ks, k)
			}
			sort.Strings(ks)
			e := n.last[ks[r.Src.Intn(len(ks), "dup_member")]]
			r.Fault("feed_duplicate")
			r.Op("node%d duplicate", n.id)
			s.apply(n, e, "duplicate")
		case 4: // spurious remove + re-add (resync): queued ahead of anything else pending for that member
			if !r.Src.Chance(pFlap*8, "flap_fire") {
				continue
			}
			var cands []string
			for _, k := range sortedSet(n.set) {
				if le, ok := n.last[k]; ok && le.add {
					cands = append(cands, k)
				}
			}
			if len(cands) == 0 {
				continue
			}
			name := cands[r.Src.Intn(len(cands), "flap_member")]
			r.Fault("feed_flap")
			r.Op("node%d flap %q", n.id, name)
			n.queues[name] = append([]event{{seq: -1, name: name, add: false}, {seq: -1, name: name, add: true}}, n.queues[name]...)
		}
		if steps%8 == 0 {
			a := quoteAll(sortedSet(s.nodes[0].set))
			for _, nd := range s.nodes[1:] {
				if quoteAll(sortedSet(nd.set)) != a {
					r.Probe("nodes_disagree_midrun")
					break
				}
			}
		}
	}

	// ---- quiesce: faults off, every feed drains (still in its own order, with its own lookups in between)
	for _, n := range s.nodes {
		for {
			pend := n.pendingNames()
			if len(pend) == 0 {
				break
			}
			idx := 0
			if reorderOn {
				idx = r.Src.Intn(len(pend), "sched_drain")
			}
			name := pend[idx]
			e := n.queues[name][0]
			n.queues[name] = n.queues[name][1:]
			s.apply(n, e, "drain")
			if r.Src.Chance(250, "drain_lookup") {
				s.lookup(n, s.keys[r.Src.Intn(len(s.keys), "key")], r.Src.Perm(len(n.set), "fresh_order"))
			}
		}
	}
	final := sortedSet(present)
	for _, n := range s.nodes {
		if got := sortedSet(n.set); quoteAll(got) != quoteAll(final) {
			r.HarnessError("node%d did not converge to the final member set: %s vs %s", n.id, quoteAll(got), quoteAll(final))
		}
	}
	if len(final) == 0 {
		r.Probe("final_set_empty")
	} else if len(final) > 1 {
		r.Probe("final_set_multi")
	}

	// ---- final oracle: all nodes and two fresh rings agree on every probe key
	perm := r.Src.Perm(len(final), "final_fresh_order")
	shuffled := make([]string, len(final))
	for i, p := range perm {
		shuffled[i] = final[len(final)-1-p] // reverse-sorted for the all-zero draw: never the sorted order
	}
	fresh := s.newRing()
	for _, m := range shuffled {
		fresh.Insert(m, m)
	}
	// a second reference that reaches the same set through a different history: everything in the universe
	// inserted, a lookup, then the non-members removed
	detour := s.newRing()
	for _, m := range names {
		detour.Insert(m, m)
	}
	detour.Lookup("warm-up")
	for _, m := range names {
		if !present[m] {
			detour.Remove(m)
		}
	}
	owners := make([]string, 0, len(s.keys))
	for _, key := range s.keys {
		want, wok := fresh.Lookup(key)
		r.Check("final_absent_iff_empty", wok == (len(final) > 0), "fresh ring over %s: Lookup(%q) ok=%v", quoteAll(final), key, wok)
		if wok {
			r.Check("final_owner_is_member", present[want], "fresh ring over %s: Lookup(%q) = %q, not a member", quoteAll(final), key, want)
		}
		dv, dok := detour.Lookup(key)
		r.Check("final_detour_agrees", dok == wok && dv == want, "key %q: ring built fresh from %s says (%q,%v) but a ring that reached the same set by insert-all/lookup/remove says (%q,%v) [%s]", key, quoteAll(shuffled), want, wok, dv, dok, s.optsDesc)
		for _, n := range s.nodes {
			got, gok := n.ring.Lookup(key)
			r.Check("final_all_nodes_agree", gok == wok && got == want, "key %q: node%d says (%q,%v) but a ring built fresh from the final set %s (inserted as %s) says (%q,%v) [%s]", key, n.id, got, gok, quoteAll(final), quoteAll(shuffled), want, wok, s.optsDesc)
		}
		owners = append(owners, want)
	}
	r.Logf("final members=%s owners=%s", quoteAll(final), quoteAll(owners))
	r.Fingerprint(fmt.Sprintf("%s|%s|%s", s.optsDesc, quoteAll(final), quoteAll(owners)))
}
