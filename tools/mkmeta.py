#!/usr/bin/env python3
"""mkmeta.py <id> <prop> <change> <needs> <demo> <demo_fail_msg> <result> <oracle> <message> [note]
Writes seeded/<id>/meta.json for an independently written breaking change that was confirmed with tools/seed_verify.sh."""
import json, sys
a = sys.argv[1:]
sid, prop, change, needs, demo, failmsg, result, oracle, msg = a[:9]
note = a[9] if len(a) > 9 else None
m = {"id": sid, "property": prop,
     "origin": "sub-agent given only the property text and a scratch worktree (no access to /verif)",
     "change": change, "needs_to_manifest": needs, "demo": demo,
     "confirmed": {"demo_on_clean_tree": "PASS", "demo_with_patch": "FAIL (%s)" % failmsg,
                   "existing_tests_with_patch": "pass as reported by the author (package-level tests that run offline); not re-run",
                   "ran": "tools/seed_verify.sh (scratch worktree of /repo HEAD, removed afterwards)"},
     "detected_by": {"check": "./check %s quick (VERIF_SEED=1, VERIF_REPO=<patched worktree>)" % prop, "result": result, "oracle": oracle, "message": msg}}
if note:
    m["note"] = note
json.dump(m, open("/verif/seeded/%s/meta.json" % sid, "w"), indent=1)
print("wrote", sid)
