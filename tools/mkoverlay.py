#!/usr/bin/env python3
"""Generate the Go runtime overlay that makes map-iteration order, select
tie-breaks and math/rand auto-seeding a pure function of a seed set through
runtime.verifSeed (see DESIGN.md 2.3).  Fails loudly if an anchor is missing."""
import json, os, sys

GOROOT = os.environ.get("VERIF_GOROOT", "/opt/veriftools/go1.26.8")

def patch(src, edits, path):
    for old, new, count in edits:
        if src.count(old) != count:
            sys.exit("mkoverlay: anchor %r found %d times (want %d) in %s" % (old, src.count(old), count, path))
        src = src.replace(old, new)
    return src

RAND_ADD = '''
// ---- verif overlay ----
// On from process start with a fixed state, so that entropy drawn during package initialisation (for
// example hash/maphash seeds cached in package variables) is the same in every process; verifSeed reseeds
// it at the start of the simulated run.
var verifOn = true
var verifState uint64 = 0x243f6a8885a308d3

//go:nosplit
func verifNext() uint64 {
	verifState += 0x9e3779b97f4a7c15
	z := verifState
	z = (z ^ (z >> 30)) * 0xbf58476d1ce4e5b9
	z = (z ^ (z >> 27)) * 0x94d049bb133111eb
	return z ^ (z >> 31)
}

//go:linkname verifSeed
func verifSeed(s uint64) {
	verifState = s
	verifOn = true
}
'''

def put(path, content):
    """Write atomically and only when the content changed (builds run concurrently)."""
    try:
        if open(path).read() == content:
            return
    except OSError:
        pass
    tmp = "%s.%d.tmp" % (path, os.getpid())
    with open(tmp, "w") as f:
        f.write(content)
    os.replace(tmp, path)


def main(out):
    os.makedirs(out, exist_ok=True)
    rt = os.path.join(GOROOT, "src", "runtime")
    repl = {}
    # rand.go
    p = os.path.join(rt, "rand.go")
    s = open(p).read()
    s = patch(s, [
        ("func rand() uint64 {\n", "func rand() uint64 {\n\tif verifOn {\n\t\treturn verifNext()\n\t}\n", 1),
        ("\tmp.cheaprand = rand()\n", "\tmp.cheaprand = bootstrapRand()\n", 1),
    ], p) + RAND_ADD
    put(os.path.join(out, "rand.go"), s); repl[p] = os.path.join(out, "rand.go")
    # alg.go
    p = os.path.join(rt, "alg.go")
    s = open(p).read()
    s = patch(s, [
        ("hashkey[i] = uintptr(bootstrapRand())", "hashkey[i] = uintptr(0x9e3779b97f4a7c15 * uint64(i+1))", 1),
        ("key[i] = bootstrapRand()", "key[i] = 0xbf58476d1ce4e5b9 * uint64(i+1)", 1),
    ], p)
    put(os.path.join(out, "alg.go"), s); repl[p] = os.path.join(out, "alg.go")
    # select.go
    p = os.path.join(rt, "select.go")
    s = open(p).read()
    s = patch(s, [
        ("j := cheaprandn(uint32(norder + 1))", "j := cheaprandn(uint32(norder + 1))\n\t\tif verifOn {\n\t\t\tj = uint32(verifNext() % uint64(norder+1))\n\t\t}", 1),
    ], p)
    put(os.path.join(out, "select.go"), s); repl[p] = os.path.join(out, "select.go")
    # proc.go: no time-slice preemption while a simulated run is in progress.  With one P, goroutine switches
    # then happen only where a goroutine blocks, so which of two runnable goroutines runs first no longer
    # depends on how long the OS happened to deschedule the process (this showed up under heavy machine load).
    p = os.path.join(rt, "proc.go")
    s = open(p).read()
    s = patch(s, [
        ("\t\t} else if pd.schedwhen+forcePreemptNS <= now {\n\t\t\tpreemptone(pp)\n",
         "\t\t} else if pd.schedwhen+forcePreemptNS <= now {\n\t\t\tif !verifOn {\n\t\t\t\tpreemptone(pp)\n\t\t\t}\n", 1),
    ], p)
    put(os.path.join(out, "proc.go"), s); repl[p] = os.path.join(out, "proc.go")
    # time.go: synctest randomises the firing order of fake timers that are due at the same instant with the
    # per-M cheaprand; draw it from the seeded stream instead (found by the gcsim engine: 2/60 divergent runs).
    p = os.path.join(rt, "time.go")
    s = open(p).read()
    s = patch(s, [
        ("\t\t\tt.rand = cheaprand()\n", "\t\t\tt.rand = cheaprand()\n\t\t\tif verifOn {\n\t\t\t\tt.rand = uint32(verifNext())\n\t\t\t}\n", 1),
    ], p)
    put(os.path.join(out, "time.go"), s); repl[p] = os.path.join(out, "time.go")
    put(os.path.join(out, "overlay.json"), json.dumps({"Replace": repl}, indent=1))

if __name__ == "__main__":
    main(sys.argv[1])
