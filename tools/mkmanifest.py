#!/usr/bin/env python3
"""Regenerate MANIFEST.json from engines.json + props_meta.json (kept valid at all times)."""
import json, os, subprocess
V = os.path.dirname(os.path.dirname(os.path.abspath(__file__)))
eng = {f[:-5]: json.load(open(os.path.join(V, "engines", f))) for f in sorted(os.listdir(os.path.join(V, "engines"))) if f.endswith(".json")}
na_reasons = json.load(open(os.path.join(V, "not_applicable.json")))
meta = {}
for e in eng.values():
    meta.update(e.get("props_meta", {}))
props = [json.loads(l)["id"] for l in open(os.path.join(V, "properties.jsonl"))]
claimed_engines = json.load(open(os.path.join(V, "claimed_engines.json")))
claimed = {}
for name, e in eng.items():
    if name not in claimed_engines:
        continue
    for p in e["props"]:
        if e.get("claimed", True) and p not in e.get("unclaimed_props", []):
            claimed[p] = name
checks, na = [], []
for p in props:
    m = meta.get(p, {})
    if p in claimed:
        e = eng[claimed[p]]
        checks.append({
            "property_id": p, "engine": claimed[p],
            "quick_cmd": "./check %s quick" % p, "thorough_cmd": "./check %s thorough" % p,
            "evidence_file": "/verif/evidence/%s.json" % p,
            "replay_cmd_template": "./check %s --replay {path}" % p,
            "level_claimed": {"category": e.get("level", "exploration"), "text": m.get("level_text", ""), "design_ref": m.get("design_ref", "DESIGN.md section 3")},
            "level_note": m.get("level_note", ""),
            "technique": m.get("technique", "deterministic simulation with fault injection: seeded search over schedules, histories and faults against the real code, oracle = reference model / invariants"),
        })
    else:
        na.append({"property_id": p, "reason": na_reasons.get(p, "not claimed in this revision: harness not built yet (planned engine per DESIGN.md section 3)")})
hooks = json.load(open(os.path.join(V, "hooks.json")))
man = {
    "version": 1,
    "setup_cmd": "./check build",
    "hooks": hooks,
    "engines": [{"name": n, "path": "sim/" + e["pkg"], "serves_properties": e["props"], "kind_free_text": e.get("kind", "deterministic simulation harness (go test binary, one process per seeded run)")} for n, e in eng.items() if n in claimed_engines],
    "checks": checks,
    "not_applicable": na,
    "notes": "All checks: ./check <ID> quick|thorough; exit 0 held / 1 VIOLATION / 2 infrastructure. Replays under /verif/replays. See DESIGN.md.",
}
json.dump(man, open(os.path.join(V, "MANIFEST.json"), "w"), indent=1)
print("claimed:", len(checks), "not applicable/unclaimed:", len(na))
