#!/bin/bash
# usage: seed_verify.sh <seed-id> <property> <demo go-test package path relative to repo> [go test -run regex]
# Confirms an independently written breaking change (in /tmp/seed-<id>-out): the demo passes on the clean tree and
# fails with the patch; then runs the property's check (quick, VERIF_SEED=1) against the patched tree.
set -u
ID=$1; PROP=$2; PKG=$3; RUN=${4:-.}; MODDIR=${SV_MODDIR:-.}; TAGS=${SV_TAGS:-}
if [[ "$RUN" == ginkgo:* ]]; then RUNARGS=(-ginkgo.focus "${RUN#ginkgo:}"); else RUNARGS=(-run "$RUN"); fi
OUT=/tmp/seed-$ID-out; WT=/tmp/sv-$ID
export CGO_ENABLED=0 GOFLAGS=-mod=mod GOPROXY=off
git -C /repo worktree remove --force $WT >/dev/null 2>&1; rm -rf $WT
git -C /repo worktree add --detach $WT HEAD >/dev/null 2>&1 || { echo "cannot create worktree"; exit 2; }
cp -r $OUT/demo/. $WT/ 2>/dev/null
echo "== demo on clean tree (expect PASS)"
(cd $WT/$MODDIR && timeout 1500 go test -tags "$TAGS" -count=1 ./$PKG/ "${RUNARGS[@]}" 2>&1 | tail -4)
echo "== apply patch"
git -C $WT apply $OUT/patch.diff || { echo "PATCH DOES NOT APPLY"; exit 2; }
(cd $WT/$MODDIR && go vet -tags "$TAGS" ./$PKG/ 2>&1 | tail -2)
echo "== demo with patch (expect FAIL)"
(cd $WT/$MODDIR && timeout 1500 go test -tags "$TAGS" -count=1 ./$PKG/ "${RUNARGS[@]}" 2>&1 | tail -6)
echo "== check $PROP against patched tree"
# remove demo files so that the check sees only the source change
(cd $WT && git status --short | grep '^??' | awk '{print $2}' | xargs -r rm -rf)
(cd /verif && VERIF_REPO=$WT VERIF_SEED=1 ./check $PROP quick 2>&1 | tail -4 | cut -c1-700)
mkdir -p /verif/seeded/$ID && cp $OUT/patch.diff /verif/seeded/$ID/ && cp -r $OUT/demo /verif/seeded/$ID/ && cp $OUT/README.md /verif/seeded/$ID/ 2>/dev/null
git -C /repo worktree remove --force $WT >/dev/null 2>&1; rm -rf $WT
rm -rf /verif/.build/bin/$(python3 -c "import hashlib;print(hashlib.sha1(b'$WT').hexdigest()[:10])") /verif/.build/mod/$(python3 -c "import hashlib;print(hashlib.sha1(b'$WT').hexdigest()[:10])")
