#!/usr/bin/env python3
"""mkbreaker.py <PROP> <suffix> [avoid text]  ->  /tmp/breaker-<PROP><suffix>.txt
Fills tools/breaker_prompt.txt from properties.jsonl.  The optional 'avoid' text names what earlier independent
changes already attacked (so that a second wave chooses a different clause or mechanism)."""
import json, sys
prop, suf = sys.argv[1], sys.argv[2]
avoid = sys.argv[3] if len(sys.argv) > 3 else ""
p = None
for line in open('/verif/properties.jsonl'):
    d = json.loads(line)
    if d['id'] == prop:
        p = d
sid = prop + suf
t = open('/verif/tools/breaker_prompt.txt').read()
t = (t.replace('{WT}', '/tmp/seed-%s-wt' % sid).replace('{OUT}', '/tmp/seed-%s-out' % sid).replace('{ID}', prop)
      .replace('{TITLE}', p['title']).replace('{STATEMENT}', p['statement'] + "\nQuantified over: " + p['quantifier']['text'])
      .replace('{FILES}', ', '.join(p['anchors']['files'])))
t += "\n\nPut the demonstration file(s) under /tmp/seed-%s-out/demo/ at the SAME relative path they must have inside the repo (e.g. /tmp/seed-%s-out/demo/felix/calc/x_demo_test.go). Prefer a plain `go test -run TestXxx` demonstration over one that needs a Ginkgo focus. In your final report give the exact package path and -run pattern of the demonstration.\n" % (sid, sid)
if avoid:
    t += "\n\nNOTE: other people have already produced changes against this property that did the following; pick a DIFFERENT clause of the property and a different mechanism/code path:\n" + avoid + "\n"
open('/tmp/breaker-%s.txt' % sid, 'w').write(t)
print('/tmp/breaker-%s.txt' % sid)
